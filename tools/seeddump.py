import sys,json,os,subprocess,shutil
sys.path.insert(0,'/verif')
from vlib import extract
from vlib.facts import Facts, dump_fn
seed=sys.argv[1]; cfg=sys.argv[2]
tmp="/tmp/dbg-"+seed
if not os.path.exists(tmp+"/facts-%s.json"%cfg):
    shutil.rmtree(tmp,ignore_errors=True); os.makedirs(tmp)
    shutil.copytree("/repo/src",tmp+"/src")
    for f in ("Cargo.toml","Cargo.lock"): shutil.copy("/repo/"+f,tmp+"/"+f)
    subprocess.run(["patch","-p1","-s","-i","/verif/seeded/%s/patch.diff"%seed],cwd=tmp,check=True)
    ok,log=extract.replay(cfg,tmp,tmp+"/facts-%s.json"%cfg)
    print("compiled",ok)
F=Facts(tmp+"/facts-%s.json"%cfg)
print(F.inlined)
for k in sys.argv[3:]:
    f=F.fn(k)
    print(dump_fn(f) if f else "NO FN "+k)
