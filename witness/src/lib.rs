//! Compile-fail witnesses: type-level claims checked by rustc itself, written as an external user
//! of `cw_multi_test` would write them. Every `compile_fail,E0xxx` block is paired with a compiling
//! twin that differs only by the offending line (a witness whose imports are wrong also fails to
//! compile). Run with `cargo +nightly test --doc` (stable ignores the error code).

/// C10: a module's `query` receives `&dyn Storage`; writing through it is a type error.
///
/// ```compile_fail,E0596
/// use cosmwasm_std::{Addr, Api, Binary, BlockInfo, CustomMsg, CustomQuery, Empty, Querier, Storage};
/// use cw_multi_test::error::AnyResult;
/// use cw_multi_test::{AppResponse, CosmosRouter, Module};
/// use serde::de::DeserializeOwned;
/// struct M;
/// impl Module for M {
///     type ExecT = Empty;
///     type QueryT = Empty;
///     type SudoT = Empty;
///     fn execute<ExecC, QueryC>(&self, _a: &dyn Api, _s: &mut dyn Storage, _r: &dyn CosmosRouter<ExecC = ExecC, QueryC = QueryC>, _b: &BlockInfo, _sender: Addr, _m: Empty) -> AnyResult<AppResponse>
///     where ExecC: CustomMsg + DeserializeOwned + 'static, QueryC: CustomQuery + DeserializeOwned + 'static { Ok(AppResponse::default()) }
///     fn query(&self, _a: &dyn Api, storage: &dyn Storage, _q: &dyn Querier, _b: &BlockInfo, _r: Empty) -> AnyResult<Binary> {
///         storage.set(b"k", b"v"); // offending line: needs &mut dyn Storage
///         Ok(Binary::default())
///     }
///     fn sudo<ExecC, QueryC>(&self, _a: &dyn Api, _s: &mut dyn Storage, _r: &dyn CosmosRouter<ExecC = ExecC, QueryC = QueryC>, _b: &BlockInfo, _m: Empty) -> AnyResult<AppResponse>
///     where ExecC: CustomMsg + DeserializeOwned + 'static, QueryC: CustomQuery + DeserializeOwned + 'static { Ok(AppResponse::default()) }
/// }
/// ```
///
/// Compiling twin (reads instead of writing):
///
/// ```
/// use cosmwasm_std::{Addr, Api, Binary, BlockInfo, CustomMsg, CustomQuery, Empty, Querier, Storage};
/// use cw_multi_test::error::AnyResult;
/// use cw_multi_test::{AppResponse, CosmosRouter, Module};
/// use serde::de::DeserializeOwned;
/// struct M;
/// impl Module for M {
///     type ExecT = Empty;
///     type QueryT = Empty;
///     type SudoT = Empty;
///     fn execute<ExecC, QueryC>(&self, _a: &dyn Api, _s: &mut dyn Storage, _r: &dyn CosmosRouter<ExecC = ExecC, QueryC = QueryC>, _b: &BlockInfo, _sender: Addr, _m: Empty) -> AnyResult<AppResponse>
///     where ExecC: CustomMsg + DeserializeOwned + 'static, QueryC: CustomQuery + DeserializeOwned + 'static { Ok(AppResponse::default()) }
///     fn query(&self, _a: &dyn Api, storage: &dyn Storage, _q: &dyn Querier, _b: &BlockInfo, _r: Empty) -> AnyResult<Binary> {
///         let _ = storage.get(b"k");
///         Ok(Binary::default())
///     }
///     fn sudo<ExecC, QueryC>(&self, _a: &dyn Api, _s: &mut dyn Storage, _r: &dyn CosmosRouter<ExecC = ExecC, QueryC = QueryC>, _b: &BlockInfo, _m: Empty) -> AnyResult<AppResponse>
///     where ExecC: CustomMsg + DeserializeOwned + 'static, QueryC: CustomQuery + DeserializeOwned + 'static { Ok(AppResponse::default()) }
/// }
/// ```
pub struct C10ModuleQueryCannotWrite;

/// C10: a contract's query entry point takes `Deps`; a function taking `DepsMut` is rejected.
///
/// ```compile_fail,E0308
/// use cosmwasm_std::{Binary, DepsMut, Deps, Empty, Env, MessageInfo, Response, StdError};
/// use cw_multi_test::ContractWrapper;
/// fn exec(_d: DepsMut, _e: Env, _i: MessageInfo, _m: Empty) -> Result<Response, StdError> { Ok(Response::new()) }
/// fn query(_d: DepsMut, _e: Env, _m: Empty) -> Result<Binary, StdError> { Ok(Binary::default()) } // offending: DepsMut
/// let _c = ContractWrapper::new(exec, exec, query);
/// ```
///
/// Compiling twin:
///
/// ```
/// use cosmwasm_std::{Binary, DepsMut, Deps, Empty, Env, MessageInfo, Response, StdError};
/// use cw_multi_test::ContractWrapper;
/// fn exec(_d: DepsMut, _e: Env, _i: MessageInfo, _m: Empty) -> Result<Response, StdError> { Ok(Response::new()) }
/// fn query(_d: Deps, _e: Env, _m: Empty) -> Result<Binary, StdError> { Ok(Binary::default()) }
/// let _c = ContractWrapper::new(exec, exec, query);
/// ```
pub struct C10ContractQueryTakesDeps;

/// C10/C07: `App::contract_storage` and `App::prefixed_storage` borrow the app shared; the app cannot be
/// executed against while such a read-only view is alive.
///
/// ```compile_fail,E0502
/// use cw_multi_test::{App, IntoAddr, Executor};
/// use cosmwasm_std::{Storage, CosmosMsg, BankMsg};
/// let mut app = App::default();
/// let view = app.prefixed_storage(b"bank");
/// let _ = app.execute("a".into_addr(), CosmosMsg::Bank(BankMsg::Burn { amount: vec![] })); // offending: &mut while view alive
/// let _ = view.get(b"k");
/// drop(view);
/// ```
///
/// ```
/// use cw_multi_test::{App, IntoAddr, Executor};
/// use cosmwasm_std::{Storage, CosmosMsg, BankMsg};
/// let mut app = App::default();
/// let view = app.prefixed_storage(b"bank");
/// let _ = view.get(b"k");
/// drop(view);
/// let _ = app.execute("a".into_addr(), CosmosMsg::Bank(BankMsg::Burn { amount: vec![] }));
/// ```
pub struct C07ReadOnlyViewBorrowsShared;

/// C20: a builder is consumed by `build`; using it afterwards is a move error.
///
/// ```compile_fail,E0382
/// use cw_multi_test::{AppBuilder, no_init};
/// let builder = AppBuilder::new();
/// let _app = builder.build(no_init);
/// let _again = builder.build(no_init); // offending: use after move
/// ```
///
/// ```
/// use cw_multi_test::{AppBuilder, no_init};
/// let builder = AppBuilder::new();
/// let _app = builder.build(no_init);
/// ```
pub struct C20BuilderConsumedByBuild;

/// C20: every `with_*` step of `ContractWrapper` consumes the wrapper (no aliasing of half-built values).
///
/// ```compile_fail,E0382
/// use cosmwasm_std::{Binary, Deps, DepsMut, Empty, Env, MessageInfo, Reply, Response, StdError};
/// use cw_multi_test::ContractWrapper;
/// fn exec(_d: DepsMut, _e: Env, _i: MessageInfo, _m: Empty) -> Result<Response, StdError> { Ok(Response::new()) }
/// fn query(_d: Deps, _e: Env, _m: Empty) -> Result<Binary, StdError> { Ok(Binary::default()) }
/// fn reply(_d: DepsMut, _e: Env, _m: Reply) -> Result<Response, StdError> { Ok(Response::new()) }
/// let c = ContractWrapper::new(exec, exec, query);
/// let _a = c.with_reply(reply);
/// let _b = c.with_reply(reply); // offending: use after move
/// ```
///
/// ```
/// use cosmwasm_std::{Binary, Deps, DepsMut, Empty, Env, MessageInfo, Reply, Response, StdError};
/// use cw_multi_test::ContractWrapper;
/// fn exec(_d: DepsMut, _e: Env, _i: MessageInfo, _m: Empty) -> Result<Response, StdError> { Ok(Response::new()) }
/// fn query(_d: Deps, _e: Env, _m: Empty) -> Result<Binary, StdError> { Ok(Binary::default()) }
/// fn reply(_d: DepsMut, _e: Env, _m: Reply) -> Result<Response, StdError> { Ok(Response::new()) }
/// let c = ContractWrapper::new(exec, exec, query);
/// let _a = c.with_reply(reply);
/// ```
pub struct C20WrapperStepsConsume;
