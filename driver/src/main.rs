// cwmt-facts: rustc_private driver that dumps type-checked facts (MIR, ADTs, traits, impls,
// consts, statics, unsafe) of the primary package as one JSON file. It decides nothing.
//
// Used as RUSTC_WORKSPACE_WRAPPER under `cargo +nightly check`. Environment:
//   CWMT_FACTS_OUT   path of the JSON file to write (one write per process)
//   CWMT_NONCE       copied into the fact file (freshness check by the runner)
//   CWMT_CONFIG      copied into the fact file (feature configuration label)
#![feature(rustc_private)]
extern crate rustc_abi;
extern crate rustc_driver;
extern crate rustc_hir;
extern crate rustc_interface;
extern crate rustc_middle;
extern crate rustc_span;

use rustc_driver::Compilation;
use rustc_hir::def::DefKind;
use rustc_hir::def_id::DefId;
use rustc_interface::interface::Compiler;
use rustc_middle::mir::{
    self, AggregateKind, BinOp, Const, Operand, Place, PlaceElem, Rvalue, StatementKind,
    TerminatorKind,
};
use rustc_middle::ty::print::with_no_trimmed_paths;
use rustc_middle::ty::{self, Ty, TyCtxt, TyKind};
use rustc_span::Span;

// ---------------------------------------------------------------- tiny JSON
enum J {
    Null,
    Bool(bool),
    Num(i128),
    Str(String),
    Arr(Vec<J>),
    Obj(Vec<(&'static str, J)>),
}
fn s<T: Into<String>>(x: T) -> J {
    J::Str(x.into())
}
fn esc(out: &mut String, x: &str) {
    out.push('"');
    for c in x.chars() {
        match c {
            '"' => out.push_str("\\\""),
            '\\' => out.push_str("\\\\"),
            '\n' => out.push_str("\\n"),
            '\r' => out.push_str("\\r"),
            '\t' => out.push_str("\\t"),
            c if (c as u32) < 0x20 => out.push_str(&format!("\\u{:04x}", c as u32)),
            c => out.push(c),
        }
    }
    out.push('"');
}
impl J {
    fn write(&self, out: &mut String) {
        match self {
            J::Null => out.push_str("null"),
            J::Bool(b) => out.push_str(if *b { "true" } else { "false" }),
            J::Num(n) => out.push_str(&n.to_string()),
            J::Str(x) => esc(out, x),
            J::Arr(v) => {
                out.push('[');
                for (i, x) in v.iter().enumerate() {
                    if i > 0 {
                        out.push(',');
                    }
                    x.write(out);
                }
                out.push(']');
            }
            J::Obj(v) => {
                out.push('{');
                for (i, (k, x)) in v.iter().enumerate() {
                    if i > 0 {
                        out.push(',');
                    }
                    esc(out, k);
                    out.push(':');
                    x.write(out);
                }
                out.push('}');
            }
        }
    }
}

// ---------------------------------------------------------------- naming
fn dps(tcx: TyCtxt<'_>, did: DefId) -> String {
    with_no_trimmed_paths!(tcx.def_path_str(did))
}
fn tys<'tcx>(t: Ty<'tcx>) -> String {
    with_no_trimmed_paths!(format!("{}", t))
}

fn self_ty_name<'tcx>(tcx: TyCtxt<'tcx>, t: Ty<'tcx>) -> String {
    match t.kind() {
        TyKind::Adt(adt, _) => dps(tcx, adt.did()),
        _ => tys(t),
    }
}

/// Normalised function key: no generic parameter names for ADT self types, no line numbers.
fn key<'tcx>(tcx: TyCtxt<'tcx>, did: DefId) -> String {
    match tcx.def_kind(did) {
        DefKind::AssocFn | DefKind::AssocConst { .. } => {
            let name = tcx.item_name(did);
            let parent = tcx.parent(did);
            match tcx.def_kind(parent) {
                DefKind::Impl { of_trait } => {
                    let self_ty = tcx.type_of(parent).instantiate_identity().skip_norm_wip();
                    let st = self_ty_name(tcx, self_ty);
                    if of_trait {
                        let tr = tcx.impl_trait_ref(parent).instantiate_identity().skip_norm_wip();
                        let extra: Vec<String> = tr.args.iter().skip(1).filter(|a| a.as_type().map(|t| !rustc_middle::ty::TypeVisitableExt::has_param(&t)).unwrap_or(false)).map(|a| with_no_trimmed_paths!(format!("{}", a))).collect();
                        if extra.is_empty() {
                            format!("<{} as {}>::{}", st, dps(tcx, tr.def_id), name)
                        } else {
                            format!("<{} as {}<{}>>::{}", st, dps(tcx, tr.def_id), extra.join(", "), name)
                        }
                    } else {
                        format!("{}::{}", st, name)
                    }
                }
                DefKind::Trait => format!("{}::{}", dps(tcx, parent), name),
                _ => dps(tcx, did),
            }
        }
        DefKind::Closure => {
            let parent = tcx.parent(did);
            let idx = tcx.def_path(did).data.last().map(|d| d.disambiguator).unwrap_or(0);
            format!("{}::{{closure#{}}}", key(tcx, parent), idx)
        }
        _ => dps(tcx, did),
    }
}

fn span_info<'tcx>(tcx: TyCtxt<'tcx>, sp: Span) -> (String, usize, Option<String>) {
    let sm = tcx.sess.source_map();
    // position of the outermost call site when the span comes from an expansion
    let root = sp.source_callsite();
    let loc = sm.lookup_char_pos(root.lo());
    let file = format!("{}", loc.file.name.prefer_local_unconditionally());
    let exp = if sp.from_expansion() {
        let d = sp.ctxt().outer_expn_data();
        Some(match d.kind {
            rustc_span::ExpnKind::Macro(_, name) => format!("{}", name),
            rustc_span::ExpnKind::Desugaring(k) => format!("desugar:{:?}", k),
            rustc_span::ExpnKind::AstPass(k) => format!("astpass:{:?}", k),
            rustc_span::ExpnKind::Root => "root".to_string(),
        })
    } else {
        None
    };
    (file, loc.line, exp)
}

// ---------------------------------------------------------------- type facts
fn ty_flags<'tcx>(tcx: TyCtxt<'tcx>, t: Ty<'tcx>, depth: usize, im: &mut bool, hash: &mut bool) {
    if depth > 8 {
        return;
    }
    match t.kind() {
        TyKind::Adt(adt, args) => {
            let p = dps(tcx, adt.did());
            if p.contains("UnsafeCell")
                || p.starts_with("std::cell::")
                || p.starts_with("core::cell::")
                || p.contains("sync::Mutex")
                || p.contains("sync::RwLock")
                || p.contains("sync::atomic::")
                || p.contains("OnceLock")
                || p.contains("OnceCell")
                || p.contains("LazyLock")
                || p.contains("LazyCell")
                || p.contains("sync::Condvar")
                || p.contains("mpsc::")
            {
                *im = true;
            }
            if p.contains("HashMap") || p.contains("HashSet") || p.contains("RandomState") {
                *hash = true;
            }
            for a in args.types() {
                ty_flags(tcx, a, depth + 1, im, hash);
            }
            if adt.did().is_local() {
                for v in adt.variants() {
                    for f in &v.fields {
                        let fty = f.ty(tcx, args);
                        ty_flags(tcx, fty, depth + 1, im, hash);
                    }
                }
            }
        }
        TyKind::Ref(_, inner, _) | TyKind::Slice(inner) | TyKind::Array(inner, _) => {
            ty_flags(tcx, *inner, depth + 1, im, hash)
        }
        TyKind::RawPtr(inner, _) => ty_flags(tcx, *inner, depth + 1, im, hash),
        TyKind::Tuple(ts) => {
            for x in ts.iter() {
                ty_flags(tcx, x, depth + 1, im, hash);
            }
        }
        _ => {}
    }
}

fn ty_info<'tcx>(tcx: TyCtxt<'tcx>, t: Ty<'tcx>) -> J {
    let mut v: Vec<(&'static str, J)> = vec![("s", s(tys(t)))];
    match t.kind() {
        TyKind::Ref(_, inner, m) => {
            v.push(("ref", s(if m.is_mut() { "mut" } else { "shared" })));
            v.push(("pointee", s(tys(*inner))));
            if let TyKind::Dynamic(..) = inner.kind() {
                v.push(("dyn", J::Bool(true)));
            }
        }
        TyKind::Adt(adt, _) => {
            v.push(("adt", s(dps(tcx, adt.did()))));
        }
        TyKind::Param(_) => v.push(("param", J::Bool(true))),
        _ => {}
    }
    let (mut im, mut hash) = (false, false);
    ty_flags(tcx, t, 0, &mut im, &mut hash);
    if im {
        v.push(("interior_mut", J::Bool(true)));
    }
    if hash {
        v.push(("hash", J::Bool(true)));
    }
    J::Obj(v)
}

// ---------------------------------------------------------------- MIR rendering
struct Cx<'a, 'tcx> {
    tcx: TyCtxt<'tcx>,
    body: &'a mir::Body<'tcx>,
    owner: DefId,
}

impl<'a, 'tcx> Cx<'a, 'tcx> {
    fn place(&self, p: &Place<'tcx>) -> J {
        let tcx = self.tcx;
        let mut pty = mir::PlaceTy::from_ty(self.body.local_decls[p.local].ty);
        let mut proj = Vec::new();
        for elem in p.projection.iter() {
            let e = match elem {
                PlaceElem::Deref => J::Obj(vec![("k", s("deref"))]),
                PlaceElem::Field(f, fty) => {
                    let idx = f.as_usize();
                    let mut name = idx.to_string();
                    let mut owner = String::new();
                    match pty.ty.kind() {
                        TyKind::Adt(adt, _) => {
                            let vi = pty.variant_index.unwrap_or(rustc_abi::FIRST_VARIANT);
                            let vd = adt.variant(vi);
                            if let Some(fd) = vd.fields.iter().nth(idx) {
                                name = fd.name.to_string();
                            }
                            owner = dps(tcx, adt.did());
                            if adt.is_enum() {
                                owner = format!("{}::{}", owner, vd.name);
                            }
                        }
                        TyKind::Closure(cd, _) => {
                            let names = tcx.closure_saved_names_of_captured_variables(*cd);
                            if let Some(n) = names.iter().nth(idx) {
                                name = n.to_string();
                            }
                            owner = "closure".to_string();
                        }
                        TyKind::Tuple(_) => owner = "tuple".to_string(),
                        _ => {}
                    }
                    J::Obj(vec![
                        ("k", s("field")),
                        ("name", s(name)),
                        ("idx", J::Num(idx as i128)),
                        ("of", s(owner)),
                        ("ty", s(tys(fty))),
                    ])
                }
                PlaceElem::Downcast(name, vi) => {
                    let mut vn = name.map(|n| n.to_string()).unwrap_or_default();
                    if let TyKind::Adt(adt, _) = pty.ty.kind() {
                        vn = adt.variant(vi).name.to_string();
                    }
                    J::Obj(vec![("k", s("downcast")), ("variant", s(vn))])
                }
                PlaceElem::Index(l) => {
                    J::Obj(vec![("k", s("index")), ("local", J::Num(l.as_usize() as i128))])
                }
                PlaceElem::ConstantIndex { offset, from_end, .. } => J::Obj(vec![
                    ("k", s("constindex")),
                    ("offset", J::Num(offset as i128)),
                    ("from_end", J::Bool(from_end)),
                ]),
                PlaceElem::Subslice { from, to, from_end } => J::Obj(vec![
                    ("k", s("subslice")),
                    ("from", J::Num(from as i128)),
                    ("to", J::Num(to as i128)),
                    ("from_end", J::Bool(from_end)),
                ]),
                other => J::Obj(vec![("k", s("other")), ("text", s(format!("{:?}", other)))]),
            };
            proj.push(e);
            pty = pty.projection_ty(tcx, elem);
        }
        J::Obj(vec![("l", J::Num(p.local.as_usize() as i128)), ("p", J::Arr(proj))])
    }

    fn constant(&self, c: &mir::ConstOperand<'tcx>) -> J {
        let tcx = self.tcx;
        let ty = c.const_.ty();
        let mut v: Vec<(&'static str, J)> = vec![("k", s("const")), ("ty", s(tys(ty)))];
        let text = with_no_trimmed_paths!(format!("{}", c.const_));
        if let TyKind::FnDef(d, gargs) = ty.kind() {
            v.push(("ck", s("fn")));
            v.push(("fn", s(key(tcx, *d))));
            v.push(("gargs", J::Arr(gargs.iter().map(|a| s(with_no_trimmed_paths!(format!("{}", a)))).collect())));
            return J::Obj(v);
        }
        match c.const_ {
            Const::Unevaluated(u, _) => {
                v.push(("ck", s("item")));
                v.push(("item", s(key(tcx, u.def))));
                if let Some(pi) = u.promoted {
                    v.push(("promoted", J::Num(pi.as_usize() as i128)));
                }
            }
            Const::Val(val, _) => {
                let mut done = false;
                if let TyKind::Ref(_, inner, _) = ty.kind() {
                    if inner.is_str() {
                        if let Some(bytes) = val.try_get_slice_bytes_for_diagnostics(tcx) {
                            v.push(("ck", s("str")));
                            v.push(("str", s(String::from_utf8_lossy(bytes).to_string())));
                            done = true;
                        }
                    } else if let TyKind::Slice(el) = inner.kind() {
                        if *el == tcx.types.u8 {
                            if let Some(bytes) = val.try_get_slice_bytes_for_diagnostics(tcx) {
                                v.push(("ck", s("bytes")));
                                v.push(("str", s(String::from_utf8_lossy(bytes).to_string())));
                                done = true;
                            }
                        }
                    }
                }
                if !done {
                    if let Some(si) = val.try_to_scalar_int() {
                        if ty.is_bool() {
                            v.push(("ck", s("bool")));
                            v.push(("int", J::Num(if si.is_null() { 0 } else { 1 })));
                        } else if ty.is_integral() || ty.is_char() {
                            v.push(("ck", s("int")));
                            let bits = si.to_bits(si.size());
                            let n: i128 = if ty.is_signed() {
                                si.to_int(si.size())
                            } else {
                                bits as i128
                            };
                            v.push(("int", J::Num(n)));
                        } else {
                            v.push(("ck", s("scalar")));
                        }
                    } else {
                        v.push(("ck", s("zst_or_other")));
                    }
                }
            }
            Const::Ty(..) => {
                v.push(("ck", s("tyconst")));
            }
        }
        v.push(("text", s(text)));
        J::Obj(v)
    }

    fn operand(&self, op: &Operand<'tcx>) -> J {
        match op {
            Operand::Copy(p) => J::Obj(vec![("k", s("copy")), ("place", self.place(p))]),
            Operand::Move(p) => J::Obj(vec![("k", s("move")), ("place", self.place(p))]),
            Operand::Constant(c) => self.constant(c),
            other => J::Obj(vec![("k", s("other")), ("text", s(format!("{:?}", other)))]),
        }
    }

    fn rvalue(&self, rv: &Rvalue<'tcx>) -> J {
        let tcx = self.tcx;
        match rv {
            Rvalue::Use(op, ..) => J::Obj(vec![("k", s("use")), ("op", self.operand(op))]),
            Rvalue::Ref(_, bk, p) => J::Obj(vec![
                ("k", s("ref")),
                ("mut", J::Bool(matches!(bk, mir::BorrowKind::Mut { .. }))),
                ("place", self.place(p)),
            ]),
            Rvalue::RawPtr(_, p) => J::Obj(vec![("k", s("rawptr")), ("place", self.place(p))]),
            Rvalue::Cast(ck, op, ty) => J::Obj(vec![
                ("k", s("cast")),
                ("cast", s(format!("{:?}", ck))),
                ("op", self.operand(op)),
                ("ty", s(tys(*ty))),
            ]),
            Rvalue::BinaryOp(bop, ops) => {
                let (a, b) = &**ops;
                J::Obj(vec![
                    ("k", s("binop")),
                    ("op", s(binop_name(*bop))),
                    ("a", self.operand(a)),
                    ("b", self.operand(b)),
                ])
            }
            Rvalue::UnaryOp(uop, a) => J::Obj(vec![
                ("k", s("unop")),
                ("op", s(format!("{:?}", uop))),
                ("a", self.operand(a)),
            ]),
            Rvalue::Discriminant(p) => {
                let mut v = vec![("k", s("discriminant")), ("place", self.place(p))];
                let sty = p.ty(self.body, tcx).ty;
                if let TyKind::Adt(adt, _) = sty.kind() {
                    v.push(("adt", s(dps(tcx, adt.did()))));
                }
                J::Obj(v)
            }
            Rvalue::Aggregate(ak, ops) => {
                let mut v: Vec<(&'static str, J)> = vec![("k", s("aggregate"))];
                match &**ak {
                    AggregateKind::Adt(adid, vidx, _, _, active) => {
                        let adt = tcx.adt_def(*adid);
                        let vd = adt.variant(*vidx);
                        v.push(("agg", s("adt")));
                        v.push(("adt", s(dps(tcx, *adid))));
                        v.push(("variant", s(vd.name.to_string())));
                        let names: Vec<J> = if let Some(a) = active {
                            vec![s(vd.fields.iter().nth(a.as_usize()).map(|f| f.name.to_string()).unwrap_or_default())]
                        } else {
                            vd.fields.iter().map(|f| s(f.name.to_string())).collect()
                        };
                        v.push(("fields", J::Arr(names)));
                    }
                    AggregateKind::Closure(cd, _) => {
                        v.push(("agg", s("closure")));
                        v.push(("closure", s(key(tcx, *cd))));
                        let names = tcx.closure_saved_names_of_captured_variables(*cd);
                        v.push(("fields", J::Arr(names.iter().map(|n| s(n.to_string())).collect())));
                    }
                    AggregateKind::Tuple => v.push(("agg", s("tuple"))),
                    AggregateKind::Array(_) => v.push(("agg", s("array"))),
                    other => {
                        v.push(("agg", s("other")));
                        v.push(("text", s(format!("{:?}", other))));
                    }
                }
                v.push(("ops", J::Arr(ops.iter().map(|o| self.operand(o)).collect())));
                J::Obj(v)
            }
            Rvalue::CopyForDeref(p) => {
                J::Obj(vec![("k", s("use")), ("op", J::Obj(vec![("k", s("copy")), ("place", self.place(p))]))])
            }
            Rvalue::Repeat(op, _) => J::Obj(vec![("k", s("repeat")), ("op", self.operand(op))]),
            Rvalue::ThreadLocalRef(d) => J::Obj(vec![("k", s("threadlocal")), ("item", s(dps(tcx, *d)))]),
            other => J::Obj(vec![("k", s("other")), ("text", s(format!("{:?}", other)))]),
        }
    }

    fn callee(&self, func: &Operand<'tcx>) -> J {
        let tcx = self.tcx;
        let fty = func.ty(self.body, tcx);
        match fty.kind() {
            TyKind::FnDef(cd, gargs) => {
                let mut v: Vec<(&'static str, J)> = vec![("key", s(key(tcx, *cd)))];
                v.push(("local", J::Bool(cd.is_local())));
                v.push(("name", s(tcx.item_name(*cd).to_string())));
                v.push(("gargs", J::Arr(gargs.iter().map(|a| s(with_no_trimmed_paths!(format!("{}", a)))).collect())));
                if let Some(tr) = tcx.trait_of_assoc(*cd) {
                    v.push(("trait", s(dps(tcx, tr))));
                    let self_ty = gargs.type_at(0);
                    v.push(("self_ty", s(tys(self_ty))));
                    if let TyKind::Adt(adt, _) = self_ty.peel_refs().kind() {
                        v.push(("self_adt", s(dps(tcx, adt.did()))));
                    }
                    if let TyKind::Dynamic(..) = self_ty.kind() {
                        v.push(("self_dyn", J::Bool(true)));
                    }
                    if let TyKind::Param(_) = self_ty.kind() {
                        v.push(("self_param", J::Bool(true)));
                    }
                    let env = ty::TypingEnv::post_analysis(tcx, self.owner);
                    if let Ok(Some(inst)) = ty::Instance::try_resolve(tcx, env, *cd, gargs) {
                        let rd = inst.def_id();
                        if matches!(inst.def, ty::InstanceKind::Item(_)) {
                            v.push(("resolved", s(key(tcx, rd))));
                            v.push(("resolved_is_default", J::Bool(rd == *cd)));
                        } else {
                            v.push(("resolved_kind", s(format!("{:?}", inst.def).split('(').next().unwrap_or("").to_string())));
                        }
                    }
                } else if let Some(imp) = tcx.inherent_impl_of_assoc(*cd) {
                    let st = tcx.type_of(imp).instantiate_identity().skip_norm_wip();
                    if let TyKind::Adt(adt, _) = st.kind() {
                        v.push(("self_adt", s(dps(tcx, adt.did()))));
                    }
                }
                // signature (inputs / output) of the callee as declared
                let sig = tcx.fn_sig(*cd).instantiate_identity().skip_norm_wip();
                let sig = sig.skip_binder();
                v.push(("inputs", J::Arr(sig.inputs().iter().map(|t| ty_info(tcx, *t)).collect())));
                v.push(("output", s(tys(sig.output()))));
                J::Obj(v)
            }
            _ => {
                let mut v: Vec<(&'static str, J)> = vec![("key", s("<indirect>"))];
                v.push(("indirect", self.operand(func)));
                v.push(("fn_ty", s(tys(fty))));
                J::Obj(v)
            }
        }
    }

    fn loc(&self, sp: Span) -> Vec<(&'static str, J)> {
        let (_f, line, exp) = span_info(self.tcx, sp);
        let mut v = vec![("line", J::Num(line as i128))];
        if let Some(e) = exp {
            v.push(("exp", s(e)));
        }
        v
    }

    fn block(&self, bb: mir::BasicBlock, data: &mir::BasicBlockData<'tcx>) -> J {
        let tcx = self.tcx;
        let mut stmts = Vec::new();
        for st in &data.statements {
            match &st.kind {
                StatementKind::Assign(b) => {
                    let (place, rv) = &**b;
                    let mut v = vec![("k", s("assign")), ("dst", self.place(place)), ("rv", self.rvalue(rv))];
                    v.extend(self.loc(st.source_info.span));
                    stmts.push(J::Obj(v));
                }
                StatementKind::SetDiscriminant { place, variant_index } => {
                    let mut vn = format!("{}", variant_index.as_usize());
                    if let TyKind::Adt(adt, _) = place.ty(self.body, tcx).ty.kind() {
                        vn = adt.variant(*variant_index).name.to_string();
                    }
                    let mut v = vec![("k", s("setdiscr")), ("dst", self.place(place)), ("variant", s(vn))];
                    v.extend(self.loc(st.source_info.span));
                    stmts.push(J::Obj(v));
                }
                _ => {}
            }
        }
        let term = data.terminator();
        let mut t: Vec<(&'static str, J)> = Vec::new();
        match &term.kind {
            TerminatorKind::Call { func, args, destination, target, .. } => {
                t.push(("k", s("call")));
                t.push(("callee", self.callee(func)));
                t.push(("args", J::Arr(args.iter().map(|a| self.operand(&a.node)).collect())));
                t.push(("dst", self.place(destination)));
                t.push(("target", target.map(|b| J::Num(b.as_usize() as i128)).unwrap_or(J::Null)));
            }
            TerminatorKind::TailCall { func, args, .. } => {
                t.push(("k", s("tailcall")));
                t.push(("callee", self.callee(func)));
                t.push(("args", J::Arr(args.iter().map(|a| self.operand(&a.node)).collect())));
            }
            TerminatorKind::SwitchInt { discr, targets } => {
                t.push(("k", s("switch")));
                t.push(("discr", self.operand(discr)));
                let dty = discr.ty(self.body, tcx);
                t.push(("discr_ty", s(tys(dty))));
                let mut names: Vec<(u128, String)> = Vec::new();
                let mut of: Option<J> = None;
                let mut adt_name = None;
                if let Some(p) = discr.place() {
                    for st in data.statements.iter().rev() {
                        if let StatementKind::Assign(b) = &st.kind {
                            if b.0 == p {
                                if let Rvalue::Discriminant(src) = &b.1 {
                                    let sty = src.ty(self.body, tcx).ty;
                                    if let TyKind::Adt(adt, _) = sty.kind() {
                                        for (i, d) in adt.discriminants(tcx) {
                                            names.push((d.val, adt.variant(i).name.to_string()));
                                        }
                                        adt_name = Some(dps(tcx, adt.did()));
                                    }
                                    of = Some(self.place(src));
                                }
                                break;
                            }
                        }
                    }
                }
                if let Some(o) = of {
                    t.push(("discr_of", o));
                }
                if let Some(a) = adt_name {
                    t.push(("adt", s(a)));
                    t.push((
                        "variants",
                        J::Arr(names.iter().map(|(v, n)| J::Arr(vec![J::Num(*v as i128), s(n.clone())])).collect()),
                    ));
                }
                t.push((
                    "targets",
                    J::Arr(
                        targets
                            .iter()
                            .map(|(v, b)| {
                                let vn = names.iter().find(|(x, _)| *x == v).map(|(_, n)| s(n.clone())).unwrap_or(J::Null);
                                J::Arr(vec![J::Num(v as i128), J::Num(b.as_usize() as i128), vn])
                            })
                            .collect(),
                    ),
                ));
                t.push(("otherwise", J::Num(targets.otherwise().as_usize() as i128)));
            }
            TerminatorKind::Goto { target } => {
                t.push(("k", s("goto")));
                t.push(("target", J::Num(target.as_usize() as i128)));
            }
            TerminatorKind::Return => t.push(("k", s("return"))),
            TerminatorKind::Unreachable => t.push(("k", s("unreachable"))),
            TerminatorKind::Drop { place, target, .. } => {
                t.push(("k", s("drop")));
                t.push(("place", self.place(place)));
                t.push(("target", J::Num(target.as_usize() as i128)));
            }
            TerminatorKind::Assert { cond, expected, target, msg, .. } => {
                t.push(("k", s("assert")));
                t.push(("cond", self.operand(cond)));
                t.push(("expected", J::Bool(*expected)));
                t.push(("target", J::Num(target.as_usize() as i128)));
                let m = format!("{:?}", msg);
                t.push(("msg", s(m.split('(').next().unwrap_or("").to_string())));
            }
            TerminatorKind::FalseEdge { real_target, .. } => {
                t.push(("k", s("goto")));
                t.push(("target", J::Num(real_target.as_usize() as i128)));
            }
            TerminatorKind::FalseUnwind { real_target, .. } => {
                t.push(("k", s("goto")));
                t.push(("target", J::Num(real_target.as_usize() as i128)));
            }
            other => {
                t.push(("k", s("other")));
                t.push(("text", s(format!("{:?}", other))));
            }
        }
        t.extend(self.loc(term.source_info.span));
        J::Obj(vec![("id", J::Num(bb.as_usize() as i128)), ("stmts", J::Arr(stmts)), ("term", J::Obj(t))])
    }
}

fn binop_name(b: BinOp) -> &'static str {
    match b {
        BinOp::Add | BinOp::AddUnchecked | BinOp::AddWithOverflow => "add",
        BinOp::Sub | BinOp::SubUnchecked | BinOp::SubWithOverflow => "sub",
        BinOp::Mul | BinOp::MulUnchecked | BinOp::MulWithOverflow => "mul",
        BinOp::Div => "div",
        BinOp::Rem => "rem",
        BinOp::BitXor => "bitxor",
        BinOp::BitAnd => "bitand",
        BinOp::BitOr => "bitor",
        BinOp::Shl | BinOp::ShlUnchecked => "shl",
        BinOp::Shr | BinOp::ShrUnchecked => "shr",
        BinOp::Eq => "eq",
        BinOp::Lt => "lt",
        BinOp::Le => "le",
        BinOp::Ne => "ne",
        BinOp::Ge => "ge",
        BinOp::Gt => "gt",
        BinOp::Cmp => "cmp",
        BinOp::Offset => "offset",
    }
}

fn is_derived(tcx: TyCtxt<'_>, did: DefId) -> bool {
    // walk up to the enclosing impl (closures inside derived fns count as derived)
    let mut cur = did;
    loop {
        match tcx.def_kind(cur) {
            DefKind::Impl { .. } => return tcx.is_automatically_derived(cur),
            DefKind::Mod => return false,
            _ => {}
        }
        match tcx.opt_parent(cur) {
            Some(p) => cur = p,
            None => return false,
        }
    }
}

fn vis_str(tcx: TyCtxt<'_>, did: DefId) -> String {
    match tcx.def_kind(did) {
        DefKind::Fn | DefKind::AssocFn => {
            let v = tcx.visibility(did);
            if v.is_public() {
                "pub".to_string()
            } else {
                "restricted".to_string()
            }
        }
        _ => "n/a".to_string(),
    }
}

fn function_json<'tcx>(tcx: TyCtxt<'tcx>, did: DefId, body: &mir::Body<'tcx>, kind: &str) -> J {
    let cx = Cx { tcx, body, owner: did };
    let span = tcx.def_span(did);
    let (file, line, exp) = span_info(tcx, span);
    let mut v: Vec<(&'static str, J)> = Vec::new();
    v.push(("key", s(key(tcx, did))));
    v.push(("path", s(dps(tcx, did))));
    v.push(("kind", s(kind)));
    v.push(("file", s(file)));
    v.push(("line", J::Num(line as i128)));
    if let Some(e) = exp {
        v.push(("exp", s(e)));
    }
    v.push(("derived", J::Bool(is_derived(tcx, did))));
    v.push(("vis", s(vis_str(tcx, did))));
    v.push(("arg_count", J::Num(body.arg_count as i128)));
    if kind == "closure" {
        v.push(("parent", s(key(tcx, tcx.parent(did)))));
        let names = tcx.closure_saved_names_of_captured_variables(did);
        v.push(("upvars", J::Arr(names.iter().map(|n| s(n.to_string())).collect())));
    }
    if matches!(tcx.def_kind(did), DefKind::AssocFn) {
        let parent = tcx.parent(did);
        if let DefKind::Impl { of_trait } = tcx.def_kind(parent) {
            let st = tcx.type_of(parent).instantiate_identity().skip_norm_wip();
            v.push(("impl_self", s(self_ty_name(tcx, st))));
            v.push(("impl_self_full", s(tys(st))));
            if of_trait {
                let tr = tcx.impl_trait_ref(parent).instantiate_identity().skip_norm_wip();
                v.push(("impl_trait", s(dps(tcx, tr.def_id))));
            }
        } else if let DefKind::Trait = tcx.def_kind(parent) {
            v.push(("in_trait", s(dps(tcx, parent))));
        }
    }
    // locals
    let mut locals = Vec::new();
    for (_l, d) in body.local_decls.iter_enumerated() {
        locals.push(ty_info(tcx, d.ty));
    }
    v.push(("locals", J::Arr(locals)));
    let mut names = Vec::new();
    for vdi in &body.var_debug_info {
        if let mir::VarDebugInfoContents::Place(p) = vdi.value {
            names.push(J::Obj(vec![("name", s(vdi.name.to_string())), ("place", cx.place(&p))]));
        }
    }
    v.push(("names", J::Arr(names)));
    let mut blocks = Vec::new();
    for (bb, data) in body.basic_blocks.iter_enumerated() {
        if data.is_cleanup {
            continue;
        }
        blocks.push(cx.block(bb, data));
    }
    v.push(("blocks", J::Arr(blocks)));
    // promoted constants (`&ReplyOn::Always`, `&[..]` literals): bodies in the same format
    if matches!(tcx.def_kind(did), DefKind::Fn | DefKind::AssocFn | DefKind::Closure) {
        let proms = tcx.promoted_mir(did);
        let mut pv = Vec::new();
        for (pi, pbody) in proms.iter_enumerated() {
            let pcx = Cx { tcx, body: pbody, owner: did };
            let mut pblocks = Vec::new();
            for (bb, data) in pbody.basic_blocks.iter_enumerated() {
                if data.is_cleanup {
                    continue;
                }
                pblocks.push(pcx.block(bb, data));
            }
            let mut plocals = Vec::new();
            for (_l, d) in pbody.local_decls.iter_enumerated() {
                plocals.push(ty_info(tcx, d.ty));
            }
            pv.push(J::Obj(vec![
                ("idx", J::Num(pi.as_usize() as i128)),
                ("locals", J::Arr(plocals)),
                ("blocks", J::Arr(pblocks)),
            ]));
        }
        v.push(("promoted", J::Arr(pv)));
    }
    J::Obj(v)
}

// ---------------------------------------------------------------- unsafe blocks (HIR)
struct UnsafeFinder<'tcx> {
    tcx: TyCtxt<'tcx>,
    found: Vec<(String, usize)>,
}
impl<'tcx> rustc_hir::intravisit::Visitor<'tcx> for UnsafeFinder<'tcx> {
    fn visit_block(&mut self, b: &'tcx rustc_hir::Block<'tcx>) {
        if let rustc_hir::BlockCheckMode::UnsafeBlock(rustc_hir::UnsafeSource::UserProvided) = b.rules {
            if !b.span.from_expansion() {
                let (f, l, _) = span_info(self.tcx, b.span);
                self.found.push((f, l));
            }
        }
        rustc_hir::intravisit::walk_block(self, b);
    }
}

struct Cb;
impl rustc_driver::Callbacks for Cb {
    fn after_analysis<'tcx>(&mut self, _c: &Compiler, tcx: TyCtxt<'tcx>) -> Compilation {
        let out_path = match std::env::var("CWMT_FACTS_OUT") {
            Ok(p) => p,
            Err(_) => return Compilation::Continue,
        };
        let mut adts = Vec::new();
        let mut traits = Vec::new();
        let mut impls = Vec::new();
        let mut statics = Vec::new();
        let mut consts = Vec::new();
        let mut unsafes = Vec::new();
        let mut functions = Vec::new();
        let mut errors: Vec<J> = Vec::new();

        for id in tcx.hir_free_items() {
            let did = id.owner_id.to_def_id();
            match tcx.def_kind(did) {
                DefKind::Struct | DefKind::Enum | DefKind::Union => {
                    let adt = tcx.adt_def(did);
                    let mut variants = Vec::new();
                    for v in adt.variants() {
                        let mut fields = Vec::new();
                        for f in &v.fields {
                            let fty = tcx.type_of(f.did).instantiate_identity().skip_norm_wip();
                            fields.push(J::Obj(vec![
                                ("name", s(f.name.to_string())),
                                ("ty", ty_info(tcx, fty)),
                                ("pub", J::Bool(f.vis.is_public())),
                            ]));
                        }
                        variants.push(J::Obj(vec![("name", s(v.name.to_string())), ("fields", J::Arr(fields))]));
                    }
                    let (file, line, _) = span_info(tcx, tcx.def_span(did));
                    adts.push(J::Obj(vec![
                        ("path", s(dps(tcx, did))),
                        ("kind", s(format!("{:?}", tcx.def_kind(did)))),
                        ("file", s(file)),
                        ("line", J::Num(line as i128)),
                        ("pub", J::Bool(tcx.visibility(did).is_public())),
                        ("variants", J::Arr(variants)),
                    ]));
                }
                DefKind::Static { .. } => {
                    let (file, line, _) = span_info(tcx, tcx.def_span(did));
                    statics.push(J::Obj(vec![("path", s(dps(tcx, did))), ("file", s(file)), ("line", J::Num(line as i128))]));
                }
                DefKind::Trait => {
                    let mut methods = Vec::new();
                    for item in tcx.associated_items(did).in_definition_order() {
                        if matches!(item.kind, ty::AssocKind::Fn { .. }) {
                            let sig = tcx.fn_sig(item.def_id).instantiate_identity().skip_norm_wip();
                            let sig = sig.skip_binder();
                            methods.push(J::Obj(vec![
                                ("name", s(item.name().to_string())),
                                ("has_default", J::Bool(item.defaultness(tcx).has_value())),
                                ("inputs", J::Arr(sig.inputs().iter().map(|t| ty_info(tcx, *t)).collect())),
                                ("output", s(tys(sig.output()))),
                                ("unsafe", J::Bool(!sig.safety().is_safe())),
                            ]));
                        }
                    }
                    let (file, line, _) = span_info(tcx, tcx.def_span(did));
                    traits.push(J::Obj(vec![
                        ("path", s(dps(tcx, did))),
                        ("file", s(file)),
                        ("line", J::Num(line as i128)),
                        ("methods", J::Arr(methods)),
                    ]));
                }
                DefKind::Impl { of_trait } => {
                    let st = tcx.type_of(did).instantiate_identity().skip_norm_wip();
                    let mut v: Vec<(&'static str, J)> = vec![
                        ("self_ty", s(tys(st))),
                        ("self_name", s(self_ty_name(tcx, st))),
                        ("derived", J::Bool(tcx.is_automatically_derived(did))),
                    ];
                    if of_trait {
                        let tr = tcx.impl_trait_ref(did).instantiate_identity().skip_norm_wip();
                        v.push(("trait", s(dps(tcx, tr.def_id))));
                        v.push(("trait_full", s(with_no_trimmed_paths!(format!("{}", tr)))));
                        let h = tcx.impl_trait_header(did);
                        // (`#[derive(Clone, Copy)]` expands to an `unsafe impl TrivialClone`: compiler-written, not code of the crate)
                        if !h.safety.is_safe() && !tcx.is_automatically_derived(did) {
                            let (f, l, _) = span_info(tcx, tcx.def_span(did));
                            unsafes.push(J::Obj(vec![("what", s("unsafe impl")), ("file", s(f)), ("line", J::Num(l as i128))]));
                        }
                    }
                    let mut methods = Vec::new();
                    for item in tcx.associated_items(did).in_definition_order() {
                        if matches!(item.kind, ty::AssocKind::Fn { .. }) {
                            let sig = tcx.fn_sig(item.def_id).instantiate_identity().skip_norm_wip();
                            let sig = sig.skip_binder();
                            methods.push(J::Obj(vec![
                                ("name", s(item.name().to_string())),
                                ("key", s(key(tcx, item.def_id))),
                                ("pub", J::Bool(tcx.visibility(item.def_id).is_public())),
                                ("inputs", J::Arr(sig.inputs().iter().map(|t| ty_info(tcx, *t)).collect())),
                                ("output", s(tys(sig.output()))),
                                ("unsafe", J::Bool(!sig.safety().is_safe())),
                            ]));
                        }
                    }
                    v.push(("methods", J::Arr(methods)));
                    let (file, line, _) = span_info(tcx, tcx.def_span(did));
                    v.push(("file", s(file)));
                    v.push(("line", J::Num(line as i128)));
                    impls.push(J::Obj(v));
                }
                _ => {}
            }
        }

        for ldid in tcx.hir_body_owners() {
            let did = ldid.to_def_id();
            let kind = tcx.def_kind(did);
            match kind {
                DefKind::Fn | DefKind::AssocFn | DefKind::Closure => {
                    if matches!(kind, DefKind::Fn | DefKind::AssocFn) {
                        let sig = tcx.fn_sig(did).instantiate_identity().skip_norm_wip();
                        if !sig.skip_binder().safety().is_safe() {
                            let (f, l, _) = span_info(tcx, tcx.def_span(did));
                            unsafes.push(J::Obj(vec![("what", s("unsafe fn")), ("file", s(f)), ("line", J::Num(l as i128))]));
                        }
                    }
                    let k = match kind {
                        DefKind::Fn => "fn",
                        DefKind::AssocFn => "assoc",
                        _ => "closure",
                    };
                    // an internal compiler error while rendering one body must not take the whole extraction down:
                    // the body is recorded as failed (rules that need it then fail closed on the missing anchor)
                    let r = std::panic::catch_unwind(std::panic::AssertUnwindSafe(|| {
                        let body = tcx.optimized_mir(did);
                        function_json(tcx, did, body, k)
                    }));
                    match r {
                        Ok(j) => functions.push(j),
                        Err(_) => errors.push(s(format!("body {}", dps(tcx, did)))),
                    }
                }
                DefKind::Const { .. } | DefKind::AssocConst { .. } => {
                    let ty = tcx.type_of(did).instantiate_identity().skip_norm_wip();
                    let body = tcx.mir_for_ctfe(did);
                    let (file, line, _) = span_info(tcx, tcx.def_span(did));
                    let mut v: Vec<(&'static str, J)> = vec![
                        ("key", s(key(tcx, did))),
                        ("path", s(dps(tcx, did))),
                        ("ty", s(tys(ty))),
                        ("file", s(file)),
                        ("line", J::Num(line as i128)),
                        ("derived", J::Bool(is_derived(tcx, did))),
                    ];
                    // evaluated value for string / byte-slice constants without generics
                    if let TyKind::Ref(_, inner, _) = ty.kind() {
                        let is_bytes = inner.is_str() || matches!(inner.kind(), TyKind::Slice(e) if *e == tcx.types.u8);
                        if is_bytes && tcx.generics_of(did).is_empty() {
                            if let Ok(val) = tcx.const_eval_poly(did) {
                                if let Some(bytes) = val.try_get_slice_bytes_for_diagnostics(tcx) {
                                    v.push(("value", s(String::from_utf8_lossy(bytes).to_string())));
                                }
                            }
                        }
                    }
                    // literal strings / integers appearing in the initialiser
                    let cx = Cx { tcx, body, owner: did };
                    let mut lits = Vec::new();
                    let mut calls = Vec::new();
                    for (_bb, data) in body.basic_blocks.iter_enumerated() {
                        if data.is_cleanup {
                            continue;
                        }
                        for st in &data.statements {
                            if let StatementKind::Assign(b) = &st.kind {
                                collect_consts(&cx, &b.1, &mut lits);
                            }
                        }
                        if let TerminatorKind::Call { func, args, .. } = &data.terminator().kind {
                            calls.push(cx.callee(func));
                            for a in args.iter() {
                                if let Operand::Constant(c) = &a.node {
                                    lits.push(cx.constant(c));
                                }
                            }
                        }
                    }
                    v.push(("lits", J::Arr(lits)));
                    v.push(("calls", J::Arr(calls)));
                    consts.push(J::Obj(v));
                }
                _ => {}
            }
        }

        // unsafe blocks
        {
            let mut uf = UnsafeFinder { tcx, found: Vec::new() };
            for ldid in tcx.hir_body_owners() {
                if let Some(body) = tcx.hir_maybe_body_owned_by(ldid) {
                    rustc_hir::intravisit::Visitor::visit_expr(&mut uf, body.value);
                }
            }
            for (f, l) in uf.found {
                unsafes.push(J::Obj(vec![("what", s("unsafe block")), ("file", s(f)), ("line", J::Num(l as i128))]));
            }
        }

        let root = J::Obj(vec![
            ("format", J::Num(1)),
            ("nonce", s(std::env::var("CWMT_NONCE").unwrap_or_default())),
            ("config", s(std::env::var("CWMT_CONFIG").unwrap_or_default())),
            ("crate", s(tcx.crate_name(rustc_hir::def_id::LOCAL_CRATE).to_string())),
            ("functions", J::Arr(functions)),
            ("adts", J::Arr(adts)),
            ("traits", J::Arr(traits)),
            ("impls", J::Arr(impls)),
            ("consts", J::Arr(consts)),
            ("statics", J::Arr(statics)),
            ("unsafe", J::Arr(unsafes)),
            ("driver_errors", J::Arr(errors)),
        ]);
        let mut out = String::new();
        root.write(&mut out);
        let tmp = format!("{}.tmp.{}", out_path, std::process::id());
        std::fs::write(&tmp, out).expect("write facts");
        std::fs::rename(&tmp, &out_path).expect("rename facts");
        Compilation::Continue
    }
}

fn collect_consts<'a, 'tcx>(cx: &Cx<'a, 'tcx>, rv: &Rvalue<'tcx>, out: &mut Vec<J>) {
    let mut push = |op: &Operand<'tcx>| {
        if let Operand::Constant(c) = op {
            out.push(cx.constant(c));
        }
    };
    match rv {
        Rvalue::Use(op, ..) | Rvalue::Cast(_, op, _) | Rvalue::UnaryOp(_, op) | Rvalue::Repeat(op, _) => push(op),
        Rvalue::BinaryOp(_, ops) => {
            push(&ops.0);
            push(&ops.1);
        }
        Rvalue::Aggregate(_, ops) => {
            for o in ops.iter() {
                push(o);
            }
        }
        _ => {}
    }
}

fn main() {
    let mut args: Vec<String> = std::env::args().collect();
    // RUSTC_WORKSPACE_WRAPPER passes the real rustc path as argv[1]
    if args.len() > 1 && (args[1].ends_with("rustc") || args[1].contains("/rustc")) {
        args.remove(1);
    }
    let primary = std::env::var("CARGO_PRIMARY_PACKAGE").is_ok() || std::env::var("CWMT_FORCE").is_ok();
    // only the lib target of the primary package (build scripts etc. are compiled normally)
    if primary {
        rustc_driver::run_compiler(&args, &mut Cb);
    } else {
        struct No;
        impl rustc_driver::Callbacks for No {}
        rustc_driver::run_compiler(&args, &mut No);
    }
}
